package refpvm

// A tiny assembler: build program blobs from instruction byte lists with
// explicit control over the bitmask.

// Ins is one instruction: its bytes (opcode first). By default only the first
// byte gets a bitmask bit; Mask overrides the bits for all of the bytes.
type Ins struct {
	Bytes []byte
	Mask  []bool // optional, len(Mask) == len(Bytes)
}

// I is shorthand for an instruction with the default mask.
func I(b ...byte) Ins { return Ins{Bytes: b} }

// Raw is a run of bytes with no bitmask bit at all (operand padding, data).
func Raw(b ...byte) Ins { return Ins{Bytes: b, Mask: make([]bool, len(b))} }

// Concat lays the instructions out one after another and returns code and mask.
func Concat(ins ...Ins) (code []byte, mask []bool) {
	for _, in := range ins {
		for k, b := range in.Bytes {
			code = append(code, b)
			switch {
			case in.Mask != nil:
				mask = append(mask, in.Mask[k])
			default:
				mask = append(mask, k == 0)
			}
		}
	}
	return
}

// PackMask packs k into ⌈|k|/8⌉ bytes, least significant bit first.
func PackMask(mask []bool) []byte {
	out := make([]byte, (len(mask)+7)/8)
	for i, b := range mask {
		if b {
			out[i/8] |= 1 << uint(i%8)
		}
	}
	return out
}

// MaskFromBits makes a mask of length n from the low n bits of v (bit i ↔ k_i).
func MaskFromBits(v uint64, n int) []bool {
	m := make([]bool, n)
	for i := 0; i < n && i < 64; i++ {
		m[i] = v&(1<<uint(i)) != 0
	}
	return m
}

// Blob encodes p = E(|j|) ‖ E1(z) ‖ E(|c|) ‖ E_z(j) ‖ c ‖ bits(k).
// Jump-table entries are written with z bytes each (bytes beyond the 8th are 0).
func Blob(jt []uint64, z int, code []byte, mask []bool) []byte {
	out := EncodeNat(uint64(len(jt)))
	out = append(out, byte(z))
	out = append(out, EncodeNat(uint64(len(code)))...)
	for _, v := range jt {
		for k := 0; k < z; k++ {
			if k < 8 {
				out = append(out, byte(v>>(8*uint(k))))
			} else {
				out = append(out, 0)
			}
		}
	}
	out = append(out, code...)
	out = append(out, PackMask(mask)...)
	return out
}

// Assemble is Blob(Concat(ins...)).
func Assemble(jt []uint64, z int, ins ...Ins) []byte {
	c, k := Concat(ins...)
	return Blob(jt, z, c, k)
}
