package refpvm

import (
	"fmt"
	"math/big"
	"math/bits"
)

// ExitKind is the outcome of Ψ.
type ExitKind uint8

const (
	Continue ExitKind = iota // only as a single-step result
	Halt
	Panic
	Fault
	Host
	OOG
)

func (k ExitKind) String() string {
	return [...]string{"continue", "halt", "panic", "fault", "host", "oog"}[k]
}

// Exit describes why the machine stopped.
type Exit struct {
	Kind ExitKind
	// Fault: GP fault address (start of the page of the lowest inaccessible
	// byte). Host: ν_X, the sign-extended immediate, as a 64-bit value.
	Arg uint64
	// Fault (and AltFault): the access that failed, for oracles that accept a
	// range of fault addresses.
	AccessAddr uint32
	AccessLen  int
	// AltFault: exit is Panic by the "any byte below 2^16" rule but the other
	// reading of GP A.8 yields Fault(AltArg); see MemResult.
	AltFault bool
	AltArg   uint64
}

func (e Exit) String() string {
	switch e.Kind {
	case Fault:
		return fmt.Sprintf("fault(0x%x)", e.Arg)
	case Host:
		return fmt.Sprintf("host(%d)", int64(e.Arg))
	}
	if e.AltFault {
		return fmt.Sprintf("%s|fault(0x%x)", e.Kind, e.AltArg)
	}
	return e.Kind.String()
}

// Options select between readings of the GP where the property text does not
// decide.
type Options struct {
	// K0Trap: an instruction fetched at an index whose bitmask bit is 0 acts as
	// trap (GP ≥ 0.6.5 wording "c_ı if k_ı = 1 ∧ c_ı ∈ U, else 0"). When false
	// the opcode byte is decoded regardless of the bitmask (A.1 literally).
	K0Trap bool
}

// Machine is the state (ı, ϱ, φ, µ) plus bookkeeping for the oracles.
type Machine struct {
	P    *Program
	PC   uint64
	Gas  uint64
	Regs [NumRegs]uint64
	Mem  *Memory
	Opt  Options

	Steps    int  // instructions paid for and executed
	SawK0    bool // an instruction was fetched where the bitmask bit is 0
	UsedSbrk bool // sbrk was executed (its semantics are only partly specified)
	LastOp   byte // opcode byte of the last executed instruction
	LastPC   uint64
	// NextPC after a Host exit: ı + 1 + skip(ı) (where Ψ_H resumes).
	NextPC uint64
	// SbrkRegs: bit i set when register i was written by an sbrk instruction.
	SbrkRegs uint16
	// DjumpTable: the last executed instruction was a dynamic jump that
	// consulted the jump table (address neither halt, 0, misaligned nor too big).
	DjumpTable bool
	DjumpEntry JTEntry // the entry it read
	// AccessAddr/AccessLen: the memory access of the last executed instruction
	// (AccessLen = 0 when it made none).
	AccessAddr uint32
	AccessLen  int
}

// Run is Ψ: steps until a non-continue outcome or until maxSteps instructions
// were executed (then ok=false).
func (m *Machine) Run(maxSteps int) (Exit, bool) {
	for n := 0; n < maxSteps; n++ {
		if e := m.Step(); e.Kind != Continue {
			return e, true
		}
	}
	return Exit{}, false
}

// ---- operand helpers ------------------------------------------------------

// le reads n ≤ 8 bytes of ζ at i, little-endian.
func (m *Machine) le(i uint64, n int) uint64 {
	var v uint64
	for k := 0; k < n; k++ {
		v |= uint64(m.P.Zeta(i+uint64(k))) << (8 * uint(k))
	}
	return v
}

// SignExt is X_n: sign extension of an n-byte value to 64 bits (X_0 = 0).
func SignExt(n int, v uint64) uint64 {
	if n == 0 {
		return 0
	}
	if n >= 8 {
		return v
	}
	sh := uint(64 - 8*n)
	return uint64(int64(v<<sh) >> sh)
}

func reg(nibble byte) int {
	if nibble > 12 {
		return 12
	}
	return int(nibble)
}

func min4(x int) int {
	if x > 4 {
		return 4
	}
	if x < 0 {
		return 0
	}
	return x
}

func b2u(b bool) uint64 {
	if b {
		return 1
	}
	return 0
}

func sx32(v uint64) uint64 { return uint64(int64(int32(uint32(v)))) }

var two64 = new(big.Int).Lsh(big.NewInt(1), 64)

func bigMod64(x *big.Int) uint64 {
	r := new(big.Int).Mod(x, two64) // Euclidean: 0 ≤ r < 2^64
	return r.Uint64()
}

func bigS(v uint64) *big.Int { return big.NewInt(int64(v)) }
func bigU(v uint64) *big.Int { return new(big.Int).SetUint64(v) }

// floor(x / 2^64) mod 2^64 for a big integer x.
func upper(x *big.Int) uint64 {
	q := new(big.Int).Rsh(x, 64) // arithmetic shift = floor division
	return bigMod64(q)
}

// ---- one step (Ψ1) --------------------------------------------------------

// Step executes one instruction. Kind==Continue means "keep going".
func (m *Machine) Step() Exit {
	if m.Gas < 1 {
		return Exit{Kind: OOG} // state untouched
	}
	m.Gas--
	m.Steps++
	p := m.P
	pc := m.PC
	op := p.Zeta(pc)
	if !p.K(pc) {
		m.SawK0 = true
		if m.Opt.K0Trap {
			op = 0
		}
	}
	m.LastOp, m.LastPC = op, pc
	m.DjumpTable = false
	m.AccessLen = 0
	l := p.Skip(pc)
	next := pc + 1 + uint64(l)
	w := &m.Regs

	panicExit := func() Exit { m.PC = 0; return Exit{Kind: Panic} }

	// branch (A.17): returns the exit for a taken/untaken branch to b
	branch := func(b int64, cond bool) Exit {
		if !cond {
			m.PC = next
			return Exit{}
		}
		if b < 0 || !p.IsBlockStart(uint64(b)) {
			return panicExit()
		}
		m.PC = uint64(b)
		return Exit{}
	}
	// djump (A.18)
	djump := func(a uint32) Exit {
		if a == HaltAddr {
			m.PC = 0
			return Exit{Kind: Halt}
		}
		if a == 0 || uint64(a) > p.NJ*JumpAlign || a%JumpAlign != 0 {
			return panicExit()
		}
		m.DjumpTable = true
		e := p.Entry(uint64(a)/JumpAlign - 1)
		m.DjumpEntry = e
		if e.Huge || !p.IsBlockStart(e.Val) {
			return panicExit()
		}
		m.PC = e.Val
		return Exit{}
	}
	memExit := func(r MemResult, addr uint32, n int) Exit {
		if r.Panic {
			e := panicExit()
			if r.AltFault {
				e.AltFault, e.AltArg, e.AccessAddr, e.AccessLen = true, uint64(r.AltFaultPage), addr, n
			}
			return e
		}
		// fault: counter stays at the faulting instruction
		return Exit{Kind: Fault, Arg: uint64(r.FaultPage), AccessAddr: addr, AccessLen: n}
	}
	load := func(addr64 uint64, n int, signed bool, dst int) Exit {
		addr := uint32(addr64)
		m.AccessAddr, m.AccessLen = addr, n
		if r := m.Mem.Check(addr, n, false); !r.OK {
			return memExit(r, addr, n)
		}
		v := m.Mem.Load(addr, n)
		if signed {
			v = SignExt(n, v)
		}
		w[dst] = v
		m.PC = next
		return Exit{}
	}
	store := func(addr64 uint64, n int, v uint64) Exit {
		addr := uint32(addr64)
		m.AccessAddr, m.AccessLen = addr, n
		if r := m.Mem.Check(addr, n, true); !r.OK {
			return memExit(r, addr, n)
		}
		m.Mem.Store(addr, n, v)
		m.PC = next
		return Exit{}
	}
	cont := func() Exit { m.PC = next; return Exit{} }

	b1 := p.Zeta(pc + 1)
	b2 := p.Zeta(pc + 2)
	ipc := int64(pc)

	switch CategoryOf(op) {
	case CatInvalid:
		return panicExit()

	case CatNone:
		if op == 0 { // trap
			return panicExit()
		}
		return cont() // fallthrough

	case CatImm: // ecalli
		lx := min4(l)
		vx := SignExt(lx, m.le(pc+1, lx))
		m.NextPC = next
		return Exit{Kind: Host, Arg: vx}

	case CatRegImm64: // load_imm_64
		w[reg(b1&15)] = m.le(pc+2, 8)
		return cont()

	case CatImmImm: // store_imm_*
		lx := min4(int(b1 % 8))
		vx := SignExt(lx, m.le(pc+2, lx))
		ly := min4(l - lx - 1)
		vy := SignExt(ly, m.le(pc+2+uint64(lx), ly))
		return store(vx, 1<<(op-30), vy)

	case CatOff: // jump
		lx := min4(l)
		off := int64(SignExt(lx, m.le(pc+1, lx)))
		return branch(ipc+off, true)

	case CatRegImm:
		ra := reg(b1 & 15)
		lx := min4(l - 1)
		vx := SignExt(lx, m.le(pc+2, lx))
		switch op {
		case 50: // jump_ind
			return djump(uint32(w[ra] + vx))
		case 51: // load_imm
			w[ra] = vx
			return cont()
		case 52:
			return load(vx, 1, false, ra)
		case 53:
			return load(vx, 1, true, ra)
		case 54:
			return load(vx, 2, false, ra)
		case 55:
			return load(vx, 2, true, ra)
		case 56:
			return load(vx, 4, false, ra)
		case 57:
			return load(vx, 4, true, ra)
		case 58:
			return load(vx, 8, false, ra)
		case 59, 60, 61, 62: // store_u8/16/32/64
			return store(vx, 1<<(op-59), w[ra])
		}

	case CatRegImmImm: // store_imm_ind_*
		ra := reg(b1 & 15)
		lx := min4(int((b1 >> 4) % 8))
		vx := SignExt(lx, m.le(pc+2, lx))
		ly := min4(l - lx - 1)
		vy := SignExt(ly, m.le(pc+2+uint64(lx), ly))
		return store(w[ra]+vx, 1<<(op-70), vy)

	case CatRegImmOff:
		ra := reg(b1 & 15)
		lx := min4(int((b1 >> 4) % 8))
		vx := SignExt(lx, m.le(pc+2, lx))
		ly := min4(l - lx - 1)
		target := ipc + int64(SignExt(ly, m.le(pc+2+uint64(lx), ly)))
		a := w[ra]
		switch op {
		case 80: // load_imm_jump
			w[ra] = vx
			return branch(target, true)
		case 81:
			return branch(target, a == vx)
		case 82:
			return branch(target, a != vx)
		case 83:
			return branch(target, a < vx)
		case 84:
			return branch(target, a <= vx)
		case 85:
			return branch(target, a >= vx)
		case 86:
			return branch(target, a > vx)
		case 87:
			return branch(target, int64(a) < int64(vx))
		case 88:
			return branch(target, int64(a) <= int64(vx))
		case 89:
			return branch(target, int64(a) >= int64(vx))
		case 90:
			return branch(target, int64(a) > int64(vx))
		}

	case CatRegReg:
		rd := reg(b1 & 15)
		ra := reg(b1 >> 4)
		a := w[ra]
		switch op {
		case 100: // move_reg
			w[rd] = a
		case 101: // sbrk
			m.UsedSbrk = true
			m.SbrkRegs |= 1 << uint(rd)
			w[rd] = m.Mem.Sbrk(a)
		case 102:
			w[rd] = uint64(bits.OnesCount64(a))
		case 103:
			w[rd] = uint64(bits.OnesCount32(uint32(a)))
		case 104:
			w[rd] = uint64(bits.LeadingZeros64(a))
		case 105:
			w[rd] = uint64(bits.LeadingZeros32(uint32(a)))
		case 106:
			w[rd] = uint64(bits.TrailingZeros64(a))
		case 107:
			w[rd] = uint64(bits.TrailingZeros32(uint32(a)))
		case 108:
			w[rd] = SignExt(1, a&0xFF)
		case 109:
			w[rd] = SignExt(2, a&0xFFFF)
		case 110:
			w[rd] = a & 0xFFFF
		case 111:
			var r uint64
			for i := 0; i < 8; i++ {
				r |= ((a >> (8 * uint(i))) & 0xFF) << (8 * uint(7-i))
			}
			w[rd] = r
		}
		return cont()

	case CatRegRegImm:
		ra := reg(b1 & 15)
		rb := reg(b1 >> 4)
		lx := min4(l - 1)
		vx := SignExt(lx, m.le(pc+2, lx))
		a, b := w[ra], w[rb]
		switch op {
		case 120, 121, 122, 123: // store_ind_*
			return store(b+vx, 1<<(op-120), a)
		case 124:
			return load(b+vx, 1, false, ra)
		case 125:
			return load(b+vx, 1, true, ra)
		case 126:
			return load(b+vx, 2, false, ra)
		case 127:
			return load(b+vx, 2, true, ra)
		case 128:
			return load(b+vx, 4, false, ra)
		case 129:
			return load(b+vx, 4, true, ra)
		case 130:
			return load(b+vx, 8, false, ra)
		case 131: // add_imm_32
			w[ra] = sx32(b + vx)
		case 132:
			w[ra] = b & vx
		case 133:
			w[ra] = b ^ vx
		case 134:
			w[ra] = b | vx
		case 135: // mul_imm_32
			w[ra] = sx32(b * vx)
		case 136:
			w[ra] = b2u(b < vx)
		case 137:
			w[ra] = b2u(int64(b) < int64(vx))
		case 138: // shlo_l_imm_32
			w[ra] = sx32(uint64(uint32(b) << (vx % 32)))
		case 139: // shlo_r_imm_32
			w[ra] = sx32(uint64(uint32(b) >> (vx % 32)))
		case 140: // shar_r_imm_32
			w[ra] = uint64(int64(int32(uint32(b)) >> (vx % 32)))
		case 141: // neg_add_imm_32
			w[ra] = sx32(vx + (1 << 32) - uint64(uint32(b)))
		case 142:
			w[ra] = b2u(b > vx)
		case 143:
			w[ra] = b2u(int64(b) > int64(vx))
		case 144: // shlo_l_imm_alt_32
			w[ra] = sx32(uint64(uint32(vx) << (b % 32)))
		case 145:
			w[ra] = sx32(uint64(uint32(vx) >> (b % 32)))
		case 146:
			w[ra] = uint64(int64(int32(uint32(vx)) >> (b % 32)))
		case 147: // cmov_iz_imm
			if b == 0 {
				w[ra] = vx
			}
		case 148: // cmov_nz_imm
			if b != 0 {
				w[ra] = vx
			}
		case 149:
			w[ra] = b + vx
		case 150:
			w[ra] = b * vx
		case 151:
			w[ra] = b << (vx % 64)
		case 152:
			w[ra] = b >> (vx % 64)
		case 153:
			w[ra] = uint64(int64(b) >> (vx % 64))
		case 154: // neg_add_imm_64
			w[ra] = vx - b
		case 155:
			w[ra] = vx << (b % 64)
		case 156:
			w[ra] = vx >> (b % 64)
		case 157:
			w[ra] = uint64(int64(vx) >> (b % 64))
		case 158: // rot_r_64_imm
			w[ra] = bits.RotateLeft64(b, -int(vx%64))
		case 159: // rot_r_64_imm_alt
			w[ra] = bits.RotateLeft64(vx, -int(b%64))
		case 160: // rot_r_32_imm
			w[ra] = sx32(uint64(bits.RotateLeft32(uint32(b), -int(vx%32))))
		case 161: // rot_r_32_imm_alt
			w[ra] = sx32(uint64(bits.RotateLeft32(uint32(vx), -int(b%32))))
		}
		return cont()

	case CatRegRegOff:
		ra := reg(b1 & 15)
		rb := reg(b1 >> 4)
		lx := min4(l - 1)
		target := ipc + int64(SignExt(lx, m.le(pc+2, lx)))
		a, b := w[ra], w[rb]
		switch op {
		case 170:
			return branch(target, a == b)
		case 171:
			return branch(target, a != b)
		case 172:
			return branch(target, a < b)
		case 173:
			return branch(target, int64(a) < int64(b))
		case 174:
			return branch(target, a >= b)
		case 175:
			return branch(target, int64(a) >= int64(b))
		}

	case CatRegRegImmImm: // load_imm_jump_ind
		ra := reg(b1 & 15)
		rb := reg(b1 >> 4)
		lx := min4(int(b2 % 8))
		vx := SignExt(lx, m.le(pc+3, lx))
		ly := min4(l - lx - 2)
		vy := SignExt(ly, m.le(pc+3+uint64(lx), ly))
		dest := uint32(w[rb] + vy) // uses φ_B before φ'_A is assigned
		w[ra] = vx
		return djump(dest)

	case CatRegRegReg:
		ra := reg(b1 & 15)
		rb := reg(b1 >> 4)
		rd := reg(min8(b2))
		a, b := w[ra], w[rb]
		a32, b32 := uint32(a), uint32(b)
		var r uint64
		switch op {
		case 190:
			r = sx32(a + b)
		case 191:
			r = sx32(a + (1 << 32) - uint64(b32))
		case 192:
			r = sx32(a * b)
		case 193: // div_u_32
			if b32 == 0 {
				r = ^uint64(0)
			} else {
				r = sx32(uint64(a32 / b32))
			}
		case 194: // div_s_32
			sa, sb := int64(int32(a32)), int64(int32(b32))
			switch {
			case sb == 0:
				r = ^uint64(0)
			case sa == -(1<<31) && sb == -1:
				r = uint64(sa)
			default:
				r = uint64(sa / sb) // Go truncates toward zero, as rtz does
			}
		case 195: // rem_u_32
			if b32 == 0 {
				r = sx32(uint64(a32))
			} else {
				r = sx32(uint64(a32 % b32))
			}
		case 196: // rem_s_32
			sa, sb := int64(int32(a32)), int64(int32(b32))
			switch {
			case sa == -(1<<31) && sb == -1:
				r = 0
			default:
				r = uint64(smod(sa, sb))
			}
		case 197:
			r = sx32(uint64(a32 << (b % 32)))
		case 198:
			r = sx32(uint64(a32 >> (b % 32)))
		case 199:
			r = uint64(int64(int32(a32) >> (b % 32)))
		case 200:
			r = a + b
		case 201:
			r = a - b
		case 202:
			r = a * b
		case 203:
			if b == 0 {
				r = ^uint64(0)
			} else {
				r = a / b
			}
		case 204: // div_s_64
			switch {
			case b == 0:
				r = ^uint64(0)
			case int64(a) == -(1<<63) && int64(b) == -1:
				r = a
			default:
				q := new(big.Int).Quo(bigS(a), bigS(b)) // truncated division
				r = bigMod64(q)
			}
		case 205:
			if b == 0 {
				r = a
			} else {
				r = a % b
			}
		case 206: // rem_s_64
			switch {
			case int64(a) == -(1<<63) && int64(b) == -1:
				r = 0
			case b == 0:
				r = a
			default:
				// sgn(a)·(|a| mod |b|) = truncated remainder
				rem := new(big.Int).Rem(bigS(a), bigS(b))
				r = bigMod64(rem)
			}
		case 207:
			r = a << (b % 64)
		case 208:
			r = a >> (b % 64)
		case 209:
			r = uint64(int64(a) >> (b % 64))
		case 210:
			r = a & b
		case 211:
			r = a ^ b
		case 212:
			r = a | b
		case 213: // mul_upper_s_s
			r = upper(new(big.Int).Mul(bigS(a), bigS(b)))
		case 214: // mul_upper_u_u
			r = upper(new(big.Int).Mul(bigU(a), bigU(b)))
		case 215: // mul_upper_s_u
			r = upper(new(big.Int).Mul(bigS(a), bigU(b)))
		case 216:
			r = b2u(a < b)
		case 217:
			r = b2u(int64(a) < int64(b))
		case 218: // cmov_iz
			r = w[rd]
			if b == 0 {
				r = a
			}
		case 219: // cmov_nz
			r = w[rd]
			if b != 0 {
				r = a
			}
		case 220:
			r = bits.RotateLeft64(a, int(b%64))
		case 221:
			r = sx32(uint64(bits.RotateLeft32(a32, int(b%32))))
		case 222:
			r = bits.RotateLeft64(a, -int(b%64))
		case 223:
			r = sx32(uint64(bits.RotateLeft32(a32, -int(b%32))))
		case 224:
			r = a &^ b
		case 225:
			r = a | ^b
		case 226:
			r = ^(a ^ b)
		case 227: // max (signed)
			r = a
			if int64(b) > int64(a) {
				r = b
			}
		case 228:
			r = a
			if b > a {
				r = b
			}
		case 229: // min (signed)
			r = a
			if int64(b) < int64(a) {
				r = b
			}
		case 230:
			r = a
			if b < a {
				r = b
			}
		}
		w[rd] = r
		return cont()
	}
	panic(fmt.Sprintf("refpvm: opcode %d not handled", op))
}

func min8(b byte) byte {
	if b > 12 {
		return 12
	}
	return b
}

// smod(a, b) = a if b = 0, else sgn(a)·(|a| mod |b|)  (GP A.33)
func smod(a, b int64) int64 {
	if b == 0 {
		return a
	}
	abs := func(x int64) int64 {
		if x < 0 {
			return -x
		}
		return x
	}
	r := abs(a) % abs(b)
	if a < 0 {
		return -r
	}
	return r
}
