// Package reftrie is R-trie: the Gray Paper Appendix D state Merklization
// written on strings of bits, directly from the recursive definition.
//
//	M(d) = H^0                                   if |d| = 0
//	     = H(bits^-1(L(k, v)))                   if d = {(b -> (k, v))}
//	     = H(bits^-1(B(M(l), M(r))))             otherwise,
//	       l = {(b[1:] -> kv) | b[0] = 0}, r = {(b[1:] -> kv) | b[0] = 1}
//	B(l, r) = [0] ++ bits(l)[1:] ++ bits(r)                                    (512 bits)
//	L(k, v) = [1,0] ++ bits(E_1(|v|))[2:] ++ bits(k)[:248] ++ bits(v) ++ 0...  if |v| <= 32
//	        = [1,1,0,0,0,0,0,0] ++ bits(k)[:248] ++ bits(H(v))                 otherwise
//
// bits() is most-significant-bit first. H is Blake2b-256. The package shares
// no code with the repository and imports only the standard library and
// golang.org/x/crypto.
package reftrie

import (
	"golang.org/x/crypto/blake2b"
)

// Bits is a string of bits, most significant bit of every octet first.
type Bits []bool

// BitsOf is the GP bits() function.
func BitsOf(b []byte) Bits {
	out := make(Bits, 0, 8*len(b))
	for _, c := range b {
		for i := 7; i >= 0; i-- {
			out = append(out, (c>>uint(i))&1 == 1)
		}
	}
	return out
}

// Pack is bits^-1; the length must be a multiple of 8.
func Pack(bits Bits) []byte {
	if len(bits)%8 != 0 {
		panic("reftrie: bit string length is not a multiple of 8")
	}
	out := make([]byte, len(bits)/8)
	for i, b := range bits {
		if b {
			out[i/8] |= 1 << uint(7-i%8)
		}
	}
	return out
}

func cat(parts ...Bits) Bits {
	var out Bits
	for _, p := range parts {
		out = append(out, p...)
	}
	return out
}

// H is Blake2b-256.
func H(b []byte) [32]byte { return blake2b.Sum256(b) }

// Entry is one (key, value) pair of the serialised state. Key has 31 octets.
type Entry struct {
	Key   []byte
	Value []byte
}

// Branch is B(l, r) as a 512-bit string.
func Branch(l, r [32]byte) Bits {
	return cat(Bits{false}, BitsOf(l[:])[1:], BitsOf(r[:]))
}

// Leaf is L(k, v) as a 512-bit string.
func Leaf(k []byte, v []byte) Bits {
	if len(k) != 31 {
		panic("reftrie: key must have 31 octets")
	}
	kb := BitsOf(k)[:248]
	if len(v) <= 32 {
		size := BitsOf([]byte{byte(len(v))})[2:] // E_1(|v|) without its two top bits
		out := cat(Bits{true, false}, size, kb, BitsOf(v))
		for len(out) < 512 {
			out = append(out, false)
		}
		return out
	}
	hv := H(v)
	return cat(Bits{true, true, false, false, false, false, false, false}, kb, BitsOf(hv[:]))
}

type item struct {
	rest Bits // key bits not yet consumed
	e    Entry
}

// Stats describes the shape of the trie that was hashed.
type Stats struct {
	Embedded int // embedded-value leaves
	Hashed   int // hashed-value leaves
	Branches int
	MaxDepth int // depth of the deepest leaf (root = 0)
}

func merkle(d []item, depth int, st *Stats) [32]byte {
	switch len(d) {
	case 0:
		return [32]byte{}
	case 1:
		if st != nil {
			if len(d[0].e.Value) <= 32 {
				st.Embedded++
			} else {
				st.Hashed++
			}
			if depth > st.MaxDepth {
				st.MaxDepth = depth
			}
		}
		return H(Pack(Leaf(d[0].e.Key, d[0].e.Value)))
	}
	var l, r []item
	for _, it := range d {
		if len(it.rest) == 0 {
			panic("reftrie: duplicate keys")
		}
		n := item{rest: it.rest[1:], e: it.e}
		if it.rest[0] {
			r = append(r, n)
		} else {
			l = append(l, n)
		}
	}
	if st != nil {
		st.Branches++
	}
	return H(Pack(Branch(merkle(l, depth+1, st), merkle(r, depth+1, st))))
}

// Root is M_sigma applied to the given serialised state (distinct 31-octet keys).
func Root(entries []Entry) [32]byte {
	r, _ := RootStats(entries)
	return r
}

// RootStats also reports the shape of the trie.
func RootStats(entries []Entry) ([32]byte, Stats) {
	d := make([]item, len(entries))
	for i, e := range entries {
		d[i] = item{rest: BitsOf(e.Key), e: e}
	}
	var st Stats
	return merkle(d, 0, &st), st
}

// CommonPrefix is the number of leading bits two keys share.
func CommonPrefix(a, b []byte) int {
	x, y := BitsOf(a), BitsOf(b)
	n := 0
	for n < len(x) && n < len(y) && x[n] == y[n] {
		n++
	}
	return n
}

// ---- GP D.1 state-key constructor C (for the full-state clause) ----

// KeyIndex is C(i) = [i, 0, 0, ...].
func KeyIndex(i byte) []byte {
	k := make([]byte, 31)
	k[0] = i
	return k
}

// KeyIndexService is C(i, s) = [i, n0, 0, n1, 0, n2, 0, n3, 0, 0, ...], n = E_4(s).
func KeyIndexService(i byte, s uint32) []byte {
	k := make([]byte, 31)
	k[0] = i
	for j := 0; j < 4; j++ {
		k[1+2*j] = byte(s >> uint(8*j))
	}
	return k
}

// KeyServiceHash is C(s, h) = [n0, a0, n1, a1, n2, a2, n3, a3, a4, ..., a26],
// n = E_4(s), a = H(h).
func KeyServiceHash(s uint32, h []byte) []byte {
	a := H(h)
	k := make([]byte, 0, 31)
	for j := 0; j < 4; j++ {
		k = append(k, byte(s>>uint(8*j)), a[j])
	}
	k = append(k, a[4:27]...)
	return k
}

// E4 is the 4-octet little-endian encoding.
func E4(x uint32) []byte {
	return []byte{byte(x), byte(x >> 8), byte(x >> 16), byte(x >> 24)}
}
