// Package vsync replaces "sync" in rewritten sources (see vsched).
package vsync

import (
	"github.com/New-JAMneration/JAM-Protocol/internal/zzverif/vsched"
)

type Locker interface {
	Lock()
	Unlock()
}

type reg struct {
	id    uint64
	epoch uint64
}

func (r *reg) ensure(s interface{ StateHash() uint64 }) *vsched.Exec {
	e := vsched.Current()
	if e != nil && r.epoch != e.Epoch() {
		r.epoch = e.Epoch()
		r.id = e.NewObj(s)
	}
	return e
}

// ---- Mutex ----

type Mutex struct {
	r      reg
	locked bool
	owner  int
}

func (m *Mutex) StateHash() uint64 {
	if m.locked {
		return m.r.id<<8 | 1
	}
	return m.r.id << 8
}

func (m *Mutex) Lock() {
	e := m.r.ensure(m)
	if e == nil {
		if m.locked {
			panic("vsync: Lock of locked mutex outside scheduler")
		}
		m.locked = true
		return
	}
	if e.Aborted() {
		return
	}
	e.Yield(&vsched.Op{Kind: "mutex.lock", Obj: m.r.id, Enabled: func() bool { return !m.locked }, Owner: func() int {
		if m.locked {
			return m.owner
		}
		return -1
	}})
	m.locked = true
	m.owner = e.CurID()
}

func (m *Mutex) TryLock() bool {
	e := m.r.ensure(m)
	if e != nil && !e.Aborted() {
		e.Point("mutex.trylock", m.r.id)
	}
	if m.locked {
		return false
	}
	m.locked = true
	return true
}

func (m *Mutex) Unlock() {
	e := m.r.ensure(m)
	if !m.locked {
		if e != nil && e.Aborted() {
			return
		}
		panic("sync: unlock of unlocked mutex")
	}
	m.locked = false
}

// ---- RWMutex ----

type RWMutex struct {
	r       reg
	writer  bool
	readers int
}

func (m *RWMutex) StateHash() uint64 {
	h := m.r.id<<16 | uint64(m.readers)<<1
	if m.writer {
		h |= 1
	}
	return h
}

func (m *RWMutex) Lock() {
	e := m.r.ensure(m)
	if e == nil {
		m.writer = true
		return
	}
	if e.Aborted() {
		return
	}
	e.Yield(&vsched.Op{Kind: "rw.lock", Obj: m.r.id, Enabled: func() bool { return !m.writer && m.readers == 0 }})
	m.writer = true
}

func (m *RWMutex) Unlock() {
	e := m.r.ensure(m)
	if !m.writer {
		if e != nil && e.Aborted() {
			return
		}
		panic("sync: Unlock of unlocked RWMutex")
	}
	m.writer = false
}

func (m *RWMutex) RLock() {
	e := m.r.ensure(m)
	if e == nil {
		m.readers++
		return
	}
	if e.Aborted() {
		return
	}
	e.Yield(&vsched.Op{Kind: "rw.rlock", Obj: m.r.id, Enabled: func() bool { return !m.writer }})
	m.readers++
}

func (m *RWMutex) RUnlock() {
	e := m.r.ensure(m)
	if m.readers <= 0 {
		if e != nil && e.Aborted() {
			return
		}
		panic("sync: RUnlock of unlocked RWMutex")
	}
	m.readers--
}

func (m *RWMutex) RLocker() Locker { return (*rlocker)(m) }

type rlocker RWMutex

func (r *rlocker) Lock()   { (*RWMutex)(r).RLock() }
func (r *rlocker) Unlock() { (*RWMutex)(r).RUnlock() }

// ---- WaitGroup ----

type WaitGroup struct {
	r reg
	n int
}

func (w *WaitGroup) StateHash() uint64 { return w.r.id<<16 | uint64(w.n) }

func (w *WaitGroup) Add(d int) {
	e := w.r.ensure(w)
	w.n += d
	if w.n < 0 {
		if e != nil && e.Aborted() {
			w.n = 0
			return
		}
		panic("sync: negative WaitGroup counter")
	}
}

func (w *WaitGroup) Done() { w.Add(-1) }

func (w *WaitGroup) Go(f func()) {
	w.Add(1)
	vsched.Go(func() {
		defer w.Done()
		f()
	})
}

func (w *WaitGroup) Wait() {
	e := w.r.ensure(w)
	if e == nil || e.Aborted() {
		return
	}
	e.Yield(&vsched.Op{Kind: "wg.wait", Obj: w.r.id, Enabled: func() bool { return w.n == 0 }})
}

// ---- Once ----

type Once struct {
	r       reg
	done    bool
	running bool
}

func (o *Once) StateHash() uint64 {
	h := o.r.id << 4
	if o.done {
		h |= 1
	}
	if o.running {
		h |= 2
	}
	return h
}

func (o *Once) Do(f func()) {
	e := o.r.ensure(o)
	if e != nil && !e.Aborted() {
		e.Yield(&vsched.Op{Kind: "once.do", Obj: o.r.id, Enabled: func() bool { return !o.running }})
	}
	if o.done {
		return
	}
	o.running = true
	defer func() {
		o.running = false
		o.done = true
	}()
	f()
}

// ---- Pool ----

// Pool: Get returns any pooled item or New() — the explorer chooses which
// (alternative 0 = most recently put item, like the per-P private slot).
type Pool struct {
	r     reg
	items []any
	New   func() any
}

func (p *Pool) StateHash() uint64 { return p.r.id<<16 | uint64(len(p.items)) }

func (p *Pool) Get() any {
	e := p.r.ensure(p)
	if e != nil && !e.Aborted() {
		e.Point("pool.get", p.r.id)
	}
	n := len(p.items)
	if n == 0 {
		if p.New != nil {
			return p.New()
		}
		return nil
	}
	// alternatives: items from newest to oldest, then New (the GC may have emptied the pool)
	alts := n
	if p.New != nil {
		alts++
	}
	k := 0
	if e != nil && alts > 1 {
		costs := make([]int, alts)
		for i := 1; i < alts; i++ {
			costs[i] = 1
		}
		k = e.Choose("pool-get", alts, costs)
	}
	if k >= n {
		return p.New()
	}
	idx := n - 1 - k
	it := p.items[idx]
	p.items = append(p.items[:idx], p.items[idx+1:]...)
	return it
}

func (p *Pool) Put(x any) {
	e := p.r.ensure(p)
	if e != nil && !e.Aborted() {
		e.Point("pool.put", p.r.id)
	}
	if x == nil {
		return
	}
	p.items = append(p.items, x)
}
