package vsched

import (
	"fmt"
	"time"
)

// Chan is the scheduler-controlled replacement of a Go channel.
// Unbuffered channels are modelled as a rendezvous: a send is enabled when a
// thread is parked in a receive (or a select with a receive case) on the
// channel and vice versa. (The telemetry package only closes its unbuffered
// channels; the rendezvous path exists for completeness.)
type Chan[T any] struct {
	id     uint64
	epoch  uint64
	cap    int
	buf    []T
	closed bool
	// rendezvous slots for cap == 0
	recvWaiters int
	sendWaiters int
	hand        []T
}

func NewChan[T any](n int) *Chan[T] {
	c := &Chan[T]{cap: n}
	c.reg()
	return c
}

func (c *Chan[T]) reg() {
	e := curExec
	if e != nil && c.epoch != e.epoch {
		c.epoch = e.epoch
		c.id = e.NewObj(c)
	}
}

func (c *Chan[T]) StateHash() uint64 {
	h := uint64(len(c.buf))*31 + uint64(c.cap)*7
	if c.closed {
		h += 1000003
	}
	return h ^ (c.id << 20)
}

func (c *Chan[T]) Len() int { return len(c.buf) }
func (c *Chan[T]) Cap() int { return c.cap }

func (c *Chan[T]) canSend() bool {
	if c == nil {
		return false
	}
	if c.closed {
		return true // will panic, as in Go
	}
	if c.cap == 0 {
		return c.recvWaiters > 0 && len(c.hand) == 0
	}
	return len(c.buf) < c.cap
}

func (c *Chan[T]) canRecv() bool {
	if c == nil {
		return false
	}
	if c.cap == 0 {
		return len(c.hand) > 0 || c.closed || c.sendWaiters > 0
	}
	return len(c.buf) > 0 || c.closed
}

func (c *Chan[T]) doSend(v T) {
	if c.closed {
		panic("send on closed channel")
	}
	if c.cap == 0 {
		c.hand = append(c.hand, v)
		return
	}
	c.buf = append(c.buf, v)
}

// trySendRaw is used by timers (non-blocking send, no scheduling point).
func (c *Chan[T]) trySendRaw(v T) bool {
	if c.closed || len(c.buf) >= c.cap {
		return false
	}
	c.buf = append(c.buf, v)
	return true
}

func (c *Chan[T]) doRecv() (T, bool) {
	var zero T
	if c.cap == 0 && len(c.hand) > 0 {
		v := c.hand[0]
		c.hand = c.hand[1:]
		return v, true
	}
	if len(c.buf) > 0 {
		v := c.buf[0]
		c.buf[0] = zero
		c.buf = c.buf[1:]
		return v, true
	}
	if c.closed {
		return zero, false
	}
	panic("vsched: recv on empty channel scheduled")
}

func (c *Chan[T]) Send(v T) {
	e := curExec
	if e == nil {
		if !c.canSend() {
			panic("vsched: blocking send outside scheduler")
		}
		c.doSend(v)
		return
	}
	if e.aborted {
		return
	}
	c.reg()
	if c.cap == 0 {
		// rendezvous: announce, wait for a receiver, hand over, then wait until taken
		c.sendWaiters++
		e.Yield(&Op{Kind: "chan.send", Obj: c.id, Enabled: c.canSend})
		c.sendWaiters--
		c.doSend(v)
		if !c.closed {
			e.Yield(&Op{Kind: "chan.sent", Obj: c.id, Enabled: func() bool { return len(c.hand) == 0 }})
		}
		return
	}
	e.Yield(&Op{Kind: "chan.send", Obj: c.id, Enabled: c.canSend})
	c.doSend(v)
}

func (c *Chan[T]) Recv2() (T, bool) {
	var zero T
	e := curExec
	if e == nil {
		if !c.canRecv() {
			panic("vsched: blocking recv outside scheduler")
		}
		return c.doRecv()
	}
	if e.aborted {
		return zero, false
	}
	if c == nil {
		e.Yield(&Op{Kind: "chan.recv.nil", Enabled: func() bool { return false }})
		return zero, false
	}
	c.reg()
	c.recvWaiters++
	e.Yield(&Op{Kind: "chan.recv", Obj: c.id, Enabled: func() bool {
		if c.cap == 0 {
			return len(c.hand) > 0 || c.closed
		}
		return c.canRecv()
	}})
	c.recvWaiters--
	return c.doRecv()
}

func (c *Chan[T]) Recv() T {
	v, _ := c.Recv2()
	return v
}

func (c *Chan[T]) Close() {
	e := curExec
	if e != nil && !e.aborted {
		c.reg()
		e.Point("chan.close", c.id)
	}
	if c.closed {
		if e != nil && e.aborted {
			return
		}
		panic("close of closed channel")
	}
	c.closed = true
}

// ---------------------------------------------------------------- select

type selCase interface {
	ready() bool
	obj() uint64
	kind() string
	enter()
	leave()
}

type RecvCase[T any] struct {
	c   *Chan[T]
	Val T
	Ok  bool
}

func (r *RecvCase[T]) ready() bool {
	if r.c == nil {
		return false
	}
	if r.c.cap == 0 {
		return len(r.c.hand) > 0 || r.c.closed
	}
	return r.c.canRecv()
}
func (r *RecvCase[T]) obj() uint64 {
	if r.c == nil {
		return 0
	}
	return r.c.id
}
func (r *RecvCase[T]) kind() string { return "recv" }
func (r *RecvCase[T]) enter() {
	if r.c != nil {
		r.c.recvWaiters++
	}
}
func (r *RecvCase[T]) leave() {
	if r.c != nil {
		r.c.recvWaiters--
	}
}

type SendCase[T any] struct {
	c *Chan[T]
	v T
}

func (s *SendCase[T]) ready() bool { return s.c != nil && s.c.canSend() }
func (s *SendCase[T]) obj() uint64 {
	if s.c == nil {
		return 0
	}
	return s.c.id
}
func (s *SendCase[T]) kind() string { return "send" }
func (s *SendCase[T]) enter() {
	if s.c != nil && s.c.cap == 0 {
		s.c.sendWaiters++
	}
}
func (s *SendCase[T]) leave() {
	if s.c != nil && s.c.cap == 0 {
		s.c.sendWaiters--
	}
}

type Sel struct {
	cases      []selCase
	fire       []func()
	hasDefault bool
}

func NewSelect(hasDefault bool) *Sel { return &Sel{hasDefault: hasDefault} }

func AddRecv[T any](s *Sel, c *Chan[T]) *RecvCase[T] {
	if c != nil {
		c.reg()
	}
	rc := &RecvCase[T]{c: c}
	s.cases = append(s.cases, rc)
	s.fire = append(s.fire, func() { rc.Val, rc.Ok = c.doRecv() })
	return rc
}

func AddSend[T any](s *Sel, c *Chan[T], v T) *SendCase[T] {
	if c != nil {
		c.reg()
	}
	sc := &SendCase[T]{c: c, v: v}
	s.cases = append(s.cases, sc)
	s.fire = append(s.fire, func() { c.doSend(v) })
	return sc
}

// Wait blocks until a case is ready (or takes the default) and returns the index
// of the chosen case in source order, or -1 for default. When several cases are
// ready the explorer chooses (Go picks uniformly at random; alternative 0 is the
// first ready case in source order, others cost one deviation).
func (s *Sel) Wait() int {
	e := curExec
	readyList := func() []int {
		var r []int
		for i, c := range s.cases {
			if c.ready() {
				r = append(r, i)
			}
		}
		return r
	}
	if e == nil {
		r := readyList()
		if len(r) == 0 {
			if s.hasDefault {
				return -1
			}
			panic("vsched: blocking select outside scheduler")
		}
		s.fire[r[0]]()
		return r[0]
	}
	if e.aborted {
		return -1
	}
	var objs uint64
	for _, c := range s.cases {
		objs = objs*131 + c.obj()
	}
	for _, c := range s.cases {
		c.enter()
	}
	e.Yield(&Op{Kind: "select", Obj: objs, Enabled: func() bool {
		if s.hasDefault {
			return true
		}
		for _, c := range s.cases {
			if c.ready() {
				return true
			}
		}
		return false
	}})
	for _, c := range s.cases {
		c.leave()
	}
	r := readyList()
	if len(r) == 0 {
		if !s.hasDefault {
			panic("vsched: select scheduled with no ready case")
		}
		return -1
	}
	k := 0
	if len(r) > 1 {
		costs := make([]int, len(r))
		for i := 1; i < len(r); i++ {
			costs[i] = 1
		}
		k = e.Choose("select-case", len(r), costs)
	}
	i := r[k]
	s.fire[i]()
	if sc, ok := s.cases[i].(interface{ afterSend(e *Exec) }); ok {
		sc.afterSend(e)
	}
	return i
}

// ---------------------------------------------------------------- virtual time

type Timer struct {
	C  *Chan[time.Time]
	tm *vtimer
}

type Ticker struct {
	C  *Chan[time.Time]
	tm *vtimer
}

func newTimer(d time.Duration, period time.Duration) *vtimer {
	e := curExec
	ch := NewChan[time.Time](1)
	tm := &vtimer{ch: ch, period: int64(period)}
	if e == nil {
		return tm
	}
	e.timerSeq++
	tm.id = e.timerSeq
	if d < 0 {
		d = 0
	}
	tm.deadline = e.now + int64(d)
	e.timers = append(e.timers, tm)
	return tm
}

func NewTimer(d time.Duration) *Timer {
	tm := newTimer(d, 0)
	return &Timer{C: tm.ch, tm: tm}
}

func (t *Timer) Stop() bool {
	was := !t.tm.stopped
	t.tm.stopped = true
	return was
}

func (t *Timer) Reset(d time.Duration) bool {
	was := !t.tm.stopped
	e := curExec
	if e != nil {
		t.tm.stopped = false
		t.tm.deadline = e.now + int64(d)
	}
	return was
}

func NewTicker(d time.Duration) *Ticker {
	if d <= 0 {
		panic("non-positive interval for NewTicker")
	}
	tm := newTimer(d, d)
	return &Ticker{C: tm.ch, tm: tm}
}

func (t *Ticker) Stop() { t.tm.stopped = true }

func After(d time.Duration) *Chan[time.Time] { return NewTimer(d).C }

func Sleep(d time.Duration) {
	if curExec == nil {
		return
	}
	After(d).Recv()
}

func Now() time.Time {
	if curExec == nil {
		return time.Unix(0, StartTimeNS)
	}
	return curExec.Now()
}

func Since(t time.Time) time.Duration { return Now().Sub(t) }

func DebugString(e *Exec) string {
	return fmt.Sprintf("outcome=%s points=%d cost=%d steps=%d fires=%d", e.Outcome, len(e.Points), e.Cost(), e.Steps, e.Fires)
}
