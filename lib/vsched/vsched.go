// Package vsched is a controlled cooperative scheduler for stateless model
// checking of real Go code (DESIGN.md §3.3 / Appendix E).
//
// Logical threads are goroutines that run one at a time. Every instrumented
// operation (mutex, atomic, channel, waitgroup, once, timer, fake I/O) announces
// itself as a pending operation and parks; the scheduler computes the enabled
// set, asks the explorer which thread runs, and wakes it. Blocking is never real
// blocking: a thread whose pending operation is not enabled is simply not
// scheduled. All choice points (thread to run, ready select case, environment
// answer, map order, early timer) are recorded so that an execution is replayed
// exactly from its choice list.
package vsched

import (
	"fmt"
	"hash/fnv"
	"runtime"
	"runtime/debug"
	"sort"
	"strings"
	"sync"
	"time"
)

// ---------------------------------------------------------------- execution

type Op struct {
	Kind    string
	Obj     uint64
	Enabled func() bool
	// Owner, when set, returns the id of the thread currently holding the object
	// the operation waits for (-1 if none); used by harness OnStep hooks.
	Owner func() int
}

type Thread struct {
	ID      int
	Name    string
	wake    chan struct{}
	pending *Op
	done    bool
	steps   int
	started bool
}

type Point struct {
	Kind   string
	N      int
	Chosen int
	Costs  []int
}

type stateful interface{ StateHash() uint64 }

type EnvEvent struct {
	Name    string
	Enabled func() bool
	Fire    func()
}

type vtimer struct {
	id       int
	deadline int64
	period   int64
	ch       *Chan[time.Time]
	stopped  bool
}

// Exec is one execution under the scheduler.
type Exec struct {
	epoch    uint64
	threads  []*Thread
	cur      *Thread
	last     *Thread
	prefix   []int
	Points   []Point
	yieldCh  chan *Thread
	aborted  bool
	now      int64
	timers   []*vtimer
	timerSeq int
	events   []*EnvEvent
	objSeq   uint64
	objs     []stateful
	Steps    int
	MaxSteps int
	Fires    int
	MaxFires int
	Outcome  string // "ok" | "deadlock" | "horizon" | "panic" | "divergence"
	Detail   string
	Blocked  []string // at deadlock: thread name + pending op
	OpTrace  []string // sequence of executed ops (for determinism self check / replay artefacts)
	KeepOps  bool
	opHash   uint64
	states   map[uint64]struct{}
	Trans    uint64
	wg       sync.WaitGroup
	// Faults is the remaining budget of environment faults that fake I/O may
	// offer as choices (set by the harness).
	Faults int
	User   interface{}
	// OnStep is called at every scheduling step (before the choice) so that a
	// harness can evaluate a state invariant.
	OnStep func(e *Exec)
	// FreeSwitch: when true (CHESS preemption bounding) choosing another thread
	// at a point where the last-run thread is blocked is free; when false (delay
	// bounding) every departure from the default thread order costs one deviation.
	FreeSwitch bool
}

var (
	curExec *Exec
	epochs  uint64
)

// Current returns the running execution (nil outside Explore/RunOnce).
func Current() *Exec { return curExec }

const StartTimeNS = int64(1_700_000_000) * int64(time.Second)

func newExec(prefix []int, states map[uint64]struct{}) *Exec {
	epochs++
	return &Exec{epoch: epochs, prefix: prefix, yieldCh: make(chan *Thread), now: StartTimeNS,
		MaxSteps: 20000, MaxFires: 24, states: states, Outcome: "ok"}
}

func (e *Exec) Epoch() uint64 { return e.epoch }

// NewObj registers a stateful object and returns its id (ids are assigned in
// creation/first-use order, which is deterministic under replay).
func (e *Exec) NewObj(s stateful) uint64 {
	e.objSeq++
	e.objs = append(e.objs, s)
	return e.objSeq
}

func (e *Exec) AddEvent(ev *EnvEvent) { e.events = append(e.events, ev) }

// Now returns the virtual time.
func (e *Exec) Now() time.Time { return time.Unix(0, e.now) }

func (e *Exec) spawn(name string, f func()) *Thread {
	t := &Thread{ID: len(e.threads), Name: name, wake: make(chan struct{})}
	t.pending = &Op{Kind: "start", Enabled: func() bool { return true }}
	e.threads = append(e.threads, t)
	e.wg.Add(1)
	go func() {
		defer e.wg.Done()
		<-t.wake
		defer func() {
			if r := recover(); r != nil {
				if !e.aborted {
					e.Outcome = "panic"
					e.Detail = fmt.Sprintf("thread %s: %v\n%s", t.Name, r, trimStack(string(debug.Stack())))
				}
			}
			t.done = true
			t.pending = nil
			e.yieldCh <- t
		}()
		if e.aborted {
			return
		}
		t.started = true
		t.pending = nil
		f()
	}()
	return t
}

func trimStack(s string) string {
	lines := strings.Split(s, "\n")
	if len(lines) > 40 {
		lines = lines[:40]
	}
	return strings.Join(lines, "\n")
}

// Go starts a new logical thread (rewritten `go` statements call this).
func Go(f func()) {
	e := curExec
	if e == nil {
		go f()
		return
	}
	if e.aborted {
		return
	}
	e.spawn(fmt.Sprintf("g%d", len(e.threads)), f)
}

// GoNamed is Go with a thread name (harness use).
func GoNamed(name string, f func()) {
	e := curExec
	if e == nil || e.aborted {
		return
	}
	e.spawn(name, f)
}

// Yield announces op and parks the calling thread until the scheduler selects
// it. On return the operation is enabled and the caller performs it atomically.
func (e *Exec) Yield(op *Op) {
	if e.aborted {
		return
	}
	t := e.cur
	t.pending = op
	e.yieldCh <- t
	<-t.wake
	if e.aborted {
		runtime.Goexit()
	}
	t.pending = nil
	t.steps++
	e.Trans++
	e.opHash = e.opHash*1099511628211 ^ H(fmt.Sprintf("%d:%s:%d", t.ID, op.Kind, op.Obj))
	if e.KeepOps {
		e.OpTrace = append(e.OpTrace, fmt.Sprintf("%s:%s#%d", t.Name, op.Kind, op.Obj))
	}
}

// Point is a pure scheduling point (no blocking).
func (e *Exec) Point(kind string, obj uint64) {
	e.Yield(&Op{Kind: kind, Obj: obj, Enabled: func() bool { return true }})
}

// Choose records an explorer-owned choice with n alternatives; alternative 0
// is the default. costs[i] is the deviation cost of alternative i.
func (e *Exec) Choose(kind string, n int, costs []int) int {
	if n <= 1 {
		return 0
	}
	if e.aborted {
		return 0
	}
	i := len(e.Points)
	c := 0
	if i < len(e.prefix) {
		c = e.prefix[i]
		if c >= n {
			e.Outcome = "divergence"
			e.Detail = fmt.Sprintf("replay divergence at point %d (%s): recorded choice %d but only %d alternatives", i, kind, c, n)
			c = 0
		}
	}
	cc := make([]int, n)
	copy(cc, costs)
	e.Points = append(e.Points, Point{Kind: kind, N: n, Chosen: c, Costs: cc})
	return c
}

func H(s string) uint64 {
	h := fnv.New64a()
	h.Write([]byte(s))
	return h.Sum64()
}

func (e *Exec) stateHash() uint64 {
	h := uint64(1469598103934665603)
	mix := func(x uint64) { h = (h ^ x) * 1099511628211 }
	for _, t := range e.threads {
		mix(uint64(t.ID))
		mix(uint64(t.steps))
		if t.done {
			mix(7)
		} else if t.pending != nil {
			mix(H(t.pending.Kind))
			mix(t.pending.Obj)
		}
	}
	for _, o := range e.objs {
		mix(o.StateHash())
	}
	for _, tm := range e.timers {
		if !tm.stopped {
			mix(uint64(tm.deadline - e.now))
		}
	}
	return h
}

func (e *Exec) resume(t *Thread) {
	e.cur = t
	e.last = t
	t.wake <- struct{}{}
	<-e.yieldCh
	e.cur = nil
}

func (e *Exec) earliestTimer() *vtimer {
	var best *vtimer
	for _, tm := range e.timers {
		if tm.stopped {
			continue
		}
		if best == nil || tm.deadline < best.deadline || (tm.deadline == best.deadline && tm.id < best.id) {
			best = tm
		}
	}
	return best
}

func (e *Exec) fireTimer(tm *vtimer) {
	if tm.deadline > e.now {
		e.now = tm.deadline
	}
	e.Fires++
	tm.ch.trySendRaw(time.Unix(0, e.now))
	if tm.period > 0 {
		tm.deadline = e.now + tm.period
	} else {
		tm.stopped = true
	}
	e.Trans++
	e.opHash = e.opHash*1099511628211 ^ H(fmt.Sprintf("timer:%d", tm.id))
	if e.KeepOps {
		e.OpTrace = append(e.OpTrace, fmt.Sprintf("timer#%d@%d", tm.id, (e.now-StartTimeNS)/int64(time.Millisecond)))
	}
}

// loop is the scheduler loop; it runs on the caller's goroutine.
func (e *Exec) loop() {
	for {
		if e.Outcome != "ok" {
			break
		}
		e.Steps++
		if e.Steps > e.MaxSteps {
			e.Outcome = "horizon"
			e.Detail = fmt.Sprintf("step horizon %d reached", e.MaxSteps)
			break
		}
		if e.states != nil {
			e.states[e.stateHash()] = struct{}{}
		}
		if e.OnStep != nil {
			e.OnStep(e)
		}
		var enabled []*Thread
		alive := 0
		for _, t := range e.threads {
			if t.done {
				continue
			}
			alive++
			if t.pending != nil && t.pending.Enabled() {
				enabled = append(enabled, t)
			}
		}
		if alive == 0 {
			break
		}
		// canonical order: last-run thread first if still enabled, then ascending ids
		sort.SliceStable(enabled, func(i, j int) bool { return enabled[i].ID < enabled[j].ID })
		lastEnabled := false
		if e.last != nil {
			for i, t := range enabled {
				if t == e.last {
					copy(enabled[1:i+1], enabled[:i])
					enabled[0] = t
					lastEnabled = true
					break
				}
			}
		}
		var evs []*EnvEvent
		for _, ev := range e.events {
			if ev.Enabled() {
				evs = append(evs, ev)
			}
		}
		tm := e.earliestTimer()
		if tm != nil && e.Fires >= e.MaxFires {
			tm = nil
			if len(enabled) == 0 && len(evs) == 0 {
				e.Outcome = "horizon"
				e.Detail = fmt.Sprintf("timer horizon %d reached with threads still waiting", e.MaxFires)
				e.describeBlocked()
				break
			}
		}
		// alternatives: threads..., [timer], events...
		n := len(enabled)
		costs := make([]int, 0, n+1+len(evs))
		for i := range enabled {
			c := 0
			if i > 0 && (lastEnabled || !e.FreeSwitch) {
				c = 1
			}
			costs = append(costs, c)
		}
		timerIdx := -1
		if tm != nil {
			timerIdx = len(costs)
			if n == 0 {
				costs = append(costs, 0)
			} else {
				costs = append(costs, 1)
			}
		}
		evIdx := len(costs)
		for range evs {
			costs = append(costs, 1)
		}
		if len(costs) == 0 {
			e.Outcome = "deadlock"
			e.describeBlocked()
			break
		}
		if n == 0 && timerIdx < 0 {
			// only environment events could move the system: they are optional, so
			// "nothing happens" is the default and that is a deadlock unless an event is chosen.
			// Model: alternative 0 = deadlock/quiescent end.
			costs = append([]int{0}, costs...)
			c := e.Choose("quiescent", len(costs), costs)
			if c == 0 {
				e.Outcome = "deadlock"
				e.describeBlocked()
				break
			}
			evs[c-1].Fire()
			e.Trans++
			e.opHash = e.opHash*1099511628211 ^ H("ev:"+evs[c-1].Name)
			if e.KeepOps {
				e.OpTrace = append(e.OpTrace, "event:"+evs[c-1].Name)
			}
			continue
		}
		c := e.Choose("sched", len(costs), costs)
		switch {
		case c < n:
			e.resume(enabled[c])
		case c == timerIdx:
			e.fireTimer(tm)
		default:
			ev := evs[c-evIdx]
			ev.Fire()
			e.Trans++
			e.opHash = e.opHash*1099511628211 ^ H("ev:"+ev.Name)
			if e.KeepOps {
				e.OpTrace = append(e.OpTrace, "event:"+ev.Name)
			}
		}
	}
	e.teardown()
}

func (e *Exec) describeBlocked() {
	for _, t := range e.threads {
		if !t.done && t.pending != nil {
			e.Blocked = append(e.Blocked, fmt.Sprintf("%s@%s#%d", t.Name, t.pending.Kind, t.pending.Obj))
		}
	}
}

// teardown unwinds every parked thread, one at a time.
func (e *Exec) teardown() {
	e.aborted = true
	for i := 0; i < len(e.threads); i++ { // threads may not grow: Go() is a no-op when aborted
		t := e.threads[i]
		if t.done {
			continue
		}
		e.cur = t
		t.wake <- struct{}{}
		<-e.yieldCh
	}
	e.cur = nil
	e.wg.Wait()
}

// OpHash identifies the executed operation sequence.
func (e *Exec) OpHash() uint64 { return e.opHash }

// Choices returns the chosen alternative of every recorded point.
func (e *Exec) Choices() []int {
	out := make([]int, len(e.Points))
	for i, p := range e.Points {
		out[i] = p.Chosen
	}
	return out
}

// Cost is the total deviation cost of the execution.
func (e *Exec) Cost() int {
	c := 0
	for _, p := range e.Points {
		c += p.Costs[p.Chosen]
	}
	return c
}

// RunOnce runs body as thread "main" under the given choice prefix.
func RunOnce(prefix []int, states map[uint64]struct{}, setup func(e *Exec), body func(e *Exec)) *Exec {
	e := newExec(prefix, states)
	if setup != nil {
		setup(e)
	}
	curExec = e
	e.spawn("main", func() { body(e) })
	e.loop()
	curExec = nil
	return e
}

// ---------------------------------------------------------------- explorer

type Stats struct {
	Executions  uint64
	Transitions uint64
	States      int
	MaxPoints   int
	MaxCost     int
	Outcomes    map[string]uint64
	Capped      bool
}

type Explorer struct {
	Bound    int
	Setup    func(e *Exec)
	Body     func(e *Exec)
	OnExec   func(e *Exec) // oracle for one complete execution
	Shard    int
	NShards  int
	MaxExecs uint64 // 0 = unlimited
	Stop     func() bool
	states   map[uint64]struct{}
	St       Stats
	item     uint64
}

func (x *Explorer) mine() bool {
	x.item++
	if x.NShards <= 1 {
		return true
	}
	return int(x.item%uint64(x.NShards)) == x.Shard
}

func (x *Explorer) runOne(prefix []int, count bool) *Exec {
	e := RunOnce(prefix, x.states, x.Setup, x.Body)
	if count {
		x.St.Executions++
		x.St.Transitions += e.Trans
		x.St.Outcomes[e.Outcome]++
		if len(e.Points) > x.St.MaxPoints {
			x.St.MaxPoints = len(e.Points)
		}
		if c := e.Cost(); c > x.St.MaxCost {
			x.St.MaxCost = c
		}
		if x.OnExec != nil {
			x.OnExec(e)
		}
	}
	return e
}

// Run explores every execution whose deviation cost is ≤ Bound. Work is
// sharded on the subtrees at depth 2 of the choice tree; the root and depth-1
// executions are run by every shard but counted and checked only by shard 0.
func (x *Explorer) Run() Stats {
	x.states = map[uint64]struct{}{}
	x.St = Stats{Outcomes: map[string]uint64{}}
	root := x.runOne(nil, x.Shard == 0)
	x.children(root, 0, 0)
	x.St.States = len(x.states)
	return x.St
}

func (x *Explorer) children(e *Exec, from int, depth int) {
	choices := e.Choices()
	cost := 0
	for i := 0; i < from; i++ {
		cost += e.Points[i].Costs[e.Points[i].Chosen]
	}
	for i := from; i < len(e.Points); i++ {
		p := e.Points[i]
		for alt := 1; alt < p.N; alt++ {
			if cost+p.Costs[alt] > x.Bound {
				continue
			}
			if x.Stop != nil && x.Stop() || (x.MaxExecs > 0 && x.St.Executions >= x.MaxExecs) {
				x.St.Capped = true
				return
			}
			pre := append(append([]int{}, choices[:i]...), alt)
			switch depth {
			case 0:
				c := x.runOne(pre, x.Shard == 0)
				x.children(c, len(pre), 1)
			case 1:
				if !x.mine() {
					continue
				}
				c := x.runOne(pre, true)
				x.children(c, len(pre), 2)
			default:
				c := x.runOne(pre, true)
				x.children(c, len(pre), depth+1)
			}
		}
		cost += p.Costs[p.Chosen]
	}
}

// Aborted reports whether the execution is being torn down (shim operations
// become no-ops so that deferred unlocks etc. run through).
func (e *Exec) Aborted() bool { return e.aborted }

// CurID returns the id of the running logical thread (-1 if none).
func (e *Exec) CurID() int {
	if e.cur == nil {
		return -1
	}
	return e.cur.ID
}

// ThreadInfo is a read-only view of a logical thread for harness invariants.
type ThreadInfo struct {
	ID      int
	Name    string
	Done    bool
	Pending string
	Obj     uint64
	Enabled bool
	Owner   int
}

func (e *Exec) Threads() []ThreadInfo {
	out := make([]ThreadInfo, 0, len(e.threads))
	for _, t := range e.threads {
		ti := ThreadInfo{ID: t.ID, Name: t.Name, Done: t.done, Owner: -1}
		if t.pending != nil {
			ti.Pending = t.pending.Kind
			ti.Obj = t.pending.Obj
			ti.Enabled = t.pending.Enabled()
			if t.pending.Owner != nil {
				ti.Owner = t.pending.Owner()
			}
		}
		out = append(out, ti)
	}
	return out
}

// Await parks the calling thread until cond holds (cond must only read state
// owned by the scheduler world; it is evaluated by the scheduler).
func (e *Exec) Await(kind string, cond func() bool) {
	e.Yield(&Op{Kind: kind, Enabled: cond})
}
