package vsched

import (
	"fmt"
	"iter"
	"reflect"
	"sort"
)

// MapIter replaces `range m` over a map in instrumented sources: the keys are
// snapshotted, put in canonical (sorted) order, and the explorer chooses the
// iteration order: all n! permutations for n <= 4, otherwise the identity, the
// n-1 rotations and the reversal (flagged as partial by the harness). Alternative
// 0 is the sorted order; any other order costs one deviation. As with Go maps,
// entries deleted during iteration are skipped; entries added are not visited.
func MapIter[M ~map[K]V, K comparable, V any](m M) iter.Seq2[K, V] {
	return func(yield func(K, V) bool) {
		keys := make([]K, 0, len(m))
		for k := range m {
			keys = append(keys, k)
		}
		sortKeys(keys)
		order := chooseOrder(len(keys))
		for _, i := range order {
			k := keys[i]
			v, ok := m[k]
			if !ok {
				continue
			}
			if !yield(k, v) {
				return
			}
		}
	}
}

// MapOrdersPartial counts map iterations whose permutation menu was not complete (n > 4).
var MapOrdersPartial uint64

func chooseOrder(n int) []int {
	id := make([]int, n)
	for i := range id {
		id[i] = i
	}
	e := curExec
	if e == nil || e.aborted || n < 2 {
		return id
	}
	var menu [][]int
	if n <= 4 {
		var rec func(k int, cur []int, used []bool)
		rec = func(k int, cur []int, used []bool) {
			if k == n {
				menu = append(menu, append([]int(nil), cur...))
				return
			}
			for i := 0; i < n; i++ {
				if !used[i] {
					used[i] = true
					rec(k+1, append(cur, i), used)
					used[i] = false
				}
			}
		}
		rec(0, nil, make([]bool, n))
	} else {
		MapOrdersPartial++
		for r := 0; r < n; r++ {
			p := make([]int, n)
			for i := range p {
				p[i] = (i + r) % n
			}
			menu = append(menu, p)
		}
		rev := make([]int, n)
		for i := range rev {
			rev[i] = n - 1 - i
		}
		menu = append(menu, rev)
	}
	costs := make([]int, len(menu))
	for i := 1; i < len(costs); i++ {
		costs[i] = 1
	}
	return menu[e.Choose("map-order", len(menu), costs)]
}

func sortKeys[K comparable](keys []K) {
	if len(keys) < 2 {
		return
	}
	rv := reflect.ValueOf(keys[0])
	switch rv.Kind() {
	case reflect.Int, reflect.Int8, reflect.Int16, reflect.Int32, reflect.Int64:
		sort.Slice(keys, func(i, j int) bool { return reflect.ValueOf(keys[i]).Int() < reflect.ValueOf(keys[j]).Int() })
	case reflect.Uint, reflect.Uint8, reflect.Uint16, reflect.Uint32, reflect.Uint64, reflect.Uintptr:
		sort.Slice(keys, func(i, j int) bool { return reflect.ValueOf(keys[i]).Uint() < reflect.ValueOf(keys[j]).Uint() })
	case reflect.String:
		sort.Slice(keys, func(i, j int) bool { return reflect.ValueOf(keys[i]).String() < reflect.ValueOf(keys[j]).String() })
	default:
		// arrays, structs: order by a deterministic rendering
		strs := make([]string, len(keys))
		for i, k := range keys {
			strs[i] = fmt.Sprintf("%#v", k)
		}
		idx := make([]int, len(keys))
		for i := range idx {
			idx[i] = i
		}
		sort.Slice(idx, func(a, b int) bool { return strs[idx[a]] < strs[idx[b]] })
		out := make([]K, len(keys))
		for i, j := range idx {
			out[i] = keys[j]
		}
		copy(keys, out)
	}
}
