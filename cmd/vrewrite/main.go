// vrewrite instruments the non-test Go files of one repository package for the
// vsched controlled scheduler and emits a `go build -overlay` fragment.
//
//	vrewrite -pkgdir /repo/internal/telemetry -out /verif/.build/C28/rw [-maps] [-drop-tests]
//
// Rewrites (purely syntactic, from the CURRENT files in pkgdir):
//
//	import "sync" / "sync/atomic" / "time" / errgroup / singleflight -> vsync / vatomic / vtime / shims
//	chan types, make(chan), send, receive, close, select, go statements -> vsched.Chan / vsched.Select / vsched.Go
//	with -maps and a list of map-typed range sites (from -mapsites file): `range m` -> `range vsched.MapIter(m)`
//
// A construct it cannot rewrite (labelled select, range over channel) is a hard
// error (exit 2): the check is then broken, not a verdict.
package main

import (
	"encoding/json"
	"flag"
	"fmt"
	"go/ast"
	"go/parser"
	"go/token"
	"os"
	"path/filepath"
	"sort"
	"strings"
)

const zz = "github.com/New-JAMneration/JAM-Protocol/internal/zzverif/"

var importSwap = map[string]string{
	"sync":                              zz + "vsync",
	"sync/atomic":                       zz + "vatomic",
	"time":                              zz + "vtime",
	"golang.org/x/sync/errgroup":        zz + "verrgroup",
	"golang.org/x/sync/singleflight":    zz + "vsingleflight",
}

type edit struct {
	start, end int
	text       string
	seq        int
}

type rewriter struct {
	fset    *token.FileSet
	src     []byte
	file    *ast.File
	base    int
	edits   []edit
	seq     int
	needV   bool
	skip    map[ast.Node]bool
	selN    int
	sites   []string
	errs    []string
	mapSite map[string]bool // "file:line" of range statements over maps
	fname   string
}

func (r *rewriter) off(p token.Pos) int { return r.fset.Position(p).Offset }

func (r *rewriter) add(start, end token.Pos, text string) {
	r.seq++
	r.edits = append(r.edits, edit{r.off(start), r.off(end), text, r.seq})
}

func (r *rewriter) addOff(start, end int, text string) {
	r.seq++
	r.edits = append(r.edits, edit{start, end, text, r.seq})
}

// render returns the source text of [start,end) with the edits recorded inside
// that range applied, and removes those edits from the list.
func (r *rewriter) render(start, end token.Pos) string {
	s, e := r.off(start), r.off(end)
	var in, out []edit
	for _, ed := range r.edits {
		if ed.start >= s && ed.end <= e {
			in = append(in, ed)
		} else {
			out = append(out, ed)
		}
	}
	r.edits = out
	return applyEdits(r.src[s:e], in, s)
}

func applyEdits(src []byte, edits []edit, base int) string {
	sort.SliceStable(edits, func(i, j int) bool {
		if edits[i].start != edits[j].start {
			return edits[i].start < edits[j].start
		}
		// insertions at the same offset: pure insertions (start==end) that close
		// something come in recording order
		return edits[i].seq < edits[j].seq
	})
	var b strings.Builder
	pos := base
	for _, ed := range edits {
		if ed.start < pos {
			panic(fmt.Sprintf("overlapping edits at offset %d", ed.start))
		}
		b.Write(src[pos-base : ed.start-base])
		b.WriteString(ed.text)
		pos = ed.end
	}
	b.Write(src[pos-base:])
	return b.String()
}

func isPrimary(e ast.Expr) bool {
	switch e.(type) {
	case *ast.Ident, *ast.SelectorExpr, *ast.CallExpr, *ast.ParenExpr, *ast.IndexExpr:
		return true
	}
	return false
}

func (r *rewriter) site(n ast.Node, what string) {
	p := r.fset.Position(n.Pos())
	r.sites = append(r.sites, fmt.Sprintf("%s:%d %s", filepath.Base(p.Filename), p.Line, what))
}

func (r *rewriter) fail(n ast.Node, what string) {
	p := r.fset.Position(n.Pos())
	r.errs = append(r.errs, fmt.Sprintf("%s:%d: cannot rewrite: %s", p.Filename, p.Line, what))
}

func (r *rewriter) pre(n ast.Node) {
	switch x := n.(type) {
	case *ast.LabeledStmt:
		if _, ok := x.Stmt.(*ast.SelectStmt); ok {
			r.fail(x, "labelled select")
		}
	case *ast.SelectStmt:
		for _, cl := range x.Body.List {
			cc := cl.(*ast.CommClause)
			if cc.Comm == nil {
				continue
			}
			r.skip[cc.Comm] = true
			switch c := cc.Comm.(type) {
			case *ast.ExprStmt:
				r.skip[c.X] = true
			case *ast.AssignStmt:
				r.skip[c.Rhs[0]] = true
			}
		}
	case *ast.CallExpr:
		if id, ok := x.Fun.(*ast.Ident); ok && id.Name == "make" && len(x.Args) > 0 {
			if ct, ok := x.Args[0].(*ast.ChanType); ok {
				r.skip[ct] = true
			}
		}
	}
}

func (r *rewriter) post(n ast.Node) {
	if r.skip[n] {
		if _, isSel := n.(*ast.SelectStmt); !isSel {
			return
		}
	}
	switch x := n.(type) {
	case *ast.ChanType:
		r.needV = true
		r.add(x.Pos(), x.Value.Pos(), "*vsched.Chan[")
		r.add(x.End(), x.End(), "]")
		r.site(x, "chan type")
	case *ast.CallExpr:
		id, ok := x.Fun.(*ast.Ident)
		if !ok {
			return
		}
		switch {
		case id.Name == "make" && len(x.Args) > 0:
			ct, ok := x.Args[0].(*ast.ChanType)
			if !ok {
				return
			}
			r.needV = true
			r.add(x.Pos(), ct.Value.Pos(), "vsched.NewChan[")
			if len(x.Args) > 1 {
				r.add(ct.End(), x.Args[1].Pos(), "](")
			} else {
				r.add(ct.End(), x.Rparen, "](0")
			}
			r.site(x, "make(chan)")
		case id.Name == "close" && len(x.Args) == 1:
			r.add(x.Pos(), x.Args[0].Pos(), "(")
			r.add(x.Args[0].End(), x.End(), ").Close()")
			r.site(x, "close(chan)")
		}
	case *ast.SendStmt:
		r.add(x.Chan.End(), x.Value.Pos(), ".Send(")
		r.add(x.End(), x.End(), ")")
		r.site(x, "send")
	case *ast.UnaryExpr:
		if x.Op != token.ARROW {
			return
		}
		if isPrimary(x.X) {
			r.add(x.Pos(), x.X.Pos(), "")
			r.add(x.End(), x.End(), ".Recv()")
		} else {
			r.add(x.Pos(), x.X.Pos(), "(")
			r.add(x.End(), x.End(), ").Recv()")
		}
		r.site(x, "recv")
	case *ast.AssignStmt:
		// v, ok := <-c   : the UnaryExpr edit above produced .Recv(); turn it into .Recv2()
		if len(x.Lhs) == 2 && len(x.Rhs) == 1 {
			if u, ok := x.Rhs[0].(*ast.UnaryExpr); ok && u.Op == token.ARROW {
				for i := range r.edits {
					if r.edits[i].start == r.off(u.End()) && strings.HasSuffix(r.edits[i].text, ".Recv()") {
						r.edits[i].text = strings.TrimSuffix(r.edits[i].text, ".Recv()") + ".Recv2()"
					}
				}
			}
		}
	case *ast.ValueSpec:
		if len(x.Names) == 2 && len(x.Values) == 1 {
			if u, ok := x.Values[0].(*ast.UnaryExpr); ok && u.Op == token.ARROW {
				for i := range r.edits {
					if r.edits[i].start == r.off(u.End()) && strings.HasSuffix(r.edits[i].text, ".Recv()") {
						r.edits[i].text = strings.TrimSuffix(r.edits[i].text, ".Recv()") + ".Recv2()"
					}
				}
			}
		}
	case *ast.GoStmt:
		r.needV = true
		r.add(x.Pos(), x.Call.Pos(), "vsched.Go(func() { ")
		r.add(x.End(), x.End(), " })")
		if len(x.Call.Args) > 0 {
			r.site(x, "go statement WITH ARGUMENTS (evaluated lazily in the closure)")
		} else {
			r.site(x, "go statement")
		}
	case *ast.RangeStmt:
		p := r.fset.Position(x.Pos())
		key := fmt.Sprintf("%s:%d", filepath.Base(p.Filename), p.Line)
		if r.mapSite[key] {
			r.needV = true
			r.add(x.X.Pos(), x.X.Pos(), "vsched.MapIter(")
			r.add(x.X.End(), x.X.End(), ")")
			r.site(x, "range over map")
		}
	case *ast.SelectStmt:
		r.rewriteSelect(x)
	}
}

func (r *rewriter) rewriteSelect(x *ast.SelectStmt) {
	r.needV = true
	r.selN++
	s := fmt.Sprintf("__vs%d", r.selN)
	hasDefault := false
	var hdr strings.Builder
	type cl struct {
		cc   *ast.CommClause
		idx  int
		bind string
	}
	var cls []cl
	idx := 0
	for _, c := range x.Body.List {
		cc := c.(*ast.CommClause)
		if cc.Comm == nil {
			hasDefault = true
			cls = append(cls, cl{cc: cc, idx: -1})
			continue
		}
		cv := fmt.Sprintf("%sc%d", s, idx)
		bind := ""
		switch cm := cc.Comm.(type) {
		case *ast.SendStmt:
			fmt.Fprintf(&hdr, "%s := vsched.AddSend(%s, %s, %s); _ = %s; ", cv, s, r.render(cm.Chan.Pos(), cm.Chan.End()), r.render(cm.Value.Pos(), cm.Value.End()), cv)
		case *ast.ExprStmt:
			u, ok := cm.X.(*ast.UnaryExpr)
			if !ok || u.Op != token.ARROW {
				r.fail(cm, "select case expression")
				return
			}
			fmt.Fprintf(&hdr, "%s := vsched.AddRecv(%s, %s); _ = %s; ", cv, s, r.render(u.X.Pos(), u.X.End()), cv)
		case *ast.AssignStmt:
			u, ok := cm.Rhs[0].(*ast.UnaryExpr)
			if !ok || u.Op != token.ARROW {
				r.fail(cm, "select case assignment")
				return
			}
			fmt.Fprintf(&hdr, "%s := vsched.AddRecv(%s, %s); _ = %s; ", cv, s, r.render(u.X.Pos(), u.X.End()), cv)
			var lhs []string
			allBlank := true
			for _, l := range cm.Lhs {
				t := r.render(l.Pos(), l.End())
				lhs = append(lhs, t)
				if t != "_" {
					allBlank = false
				}
			}
			tok := cm.Tok.String()
			if allBlank {
				tok = "="
			}
			if len(lhs) == 1 {
				bind = fmt.Sprintf(" %s %s %s.Val;", lhs[0], tok, cv)
			} else {
				bind = fmt.Sprintf(" %s, %s %s %s.Val, %s.Ok;", lhs[0], lhs[1], tok, cv, cv)
			}
			if cm.Tok == token.DEFINE {
				for _, l := range lhs {
					if l != "_" {
						bind += fmt.Sprintf(" _ = %s;", l)
					}
				}
			}
		default:
			r.fail(cc, "select comm clause")
			return
		}
		cls = append(cls, cl{cc: cc, idx: idx, bind: bind})
		idx++
	}
	head := fmt.Sprintf("{ %s := vsched.NewSelect(%v); %sswitch %s.Wait() {", s, hasDefault, hdr.String(), s)
	r.add(x.Pos(), x.Body.Lbrace+1, head)
	for _, c := range cls {
		if c.idx < 0 {
			r.add(c.cc.Pos(), c.cc.Colon+1, "default:")
		} else {
			r.add(c.cc.Pos(), c.cc.Colon+1, fmt.Sprintf("case %d:%s", c.idx, c.bind))
		}
	}
	if hasDefault {
		r.add(x.End(), x.End(), "}")
	} else {
		// keep the statement terminating when every case terminates
		r.add(x.End()-1, x.End()-1, "default: panic(\"vsched: select returned no case\")\n")
		r.add(x.End(), x.End(), "}")
	}
	r.site(x, fmt.Sprintf("select (%d cases, default=%v)", idx, hasDefault))
}

func rewriteFile(fset *token.FileSet, path string, mapSites map[string]bool) (string, []string, []string, error) {
	src, err := os.ReadFile(path)
	if err != nil {
		return "", nil, nil, err
	}
	f, err := parser.ParseFile(fset, path, src, parser.ParseComments)
	if err != nil {
		return "", nil, nil, err
	}
	r := &rewriter{fset: fset, src: src, file: f, skip: map[ast.Node]bool{}, mapSite: mapSites, fname: path}
	// imports
	for _, im := range f.Imports {
		p := strings.Trim(im.Path.Value, "`\"")
		np, ok := importSwap[p]
		if !ok {
			continue
		}
		name := filepath.Base(p)
		if im.Name != nil {
			name = im.Name.Name
		}
		r.add(im.Pos(), im.End(), fmt.Sprintf("%s %q", name, np))
		r.site(im, "import "+p)
	}
	var stack []ast.Node
	ast.Inspect(f, func(n ast.Node) bool {
		if n == nil {
			top := stack[len(stack)-1]
			stack = stack[:len(stack)-1]
			r.post(top)
			return true
		}
		r.pre(n)
		stack = append(stack, n)
		return true
	})
	if r.needV {
		hasV := false
		for _, im := range f.Imports {
			if strings.Trim(im.Path.Value, "`\"") == zz+"vsched" {
				hasV = true
			}
		}
		if !hasV {
			r.add(f.Name.End(), f.Name.End(), fmt.Sprintf("\nimport vsched %q\n", zz+"vsched"))
		}
	}
	out := applyEdits(src, r.edits, 0)
	return out, r.sites, r.errs, nil
}

func main() {
	pkgdir := flag.String("pkgdir", "", "package directory in the repository")
	out := flag.String("out", "", "output directory for rewritten files")
	dropTests := flag.Bool("drop-tests", false, "delete the package's own _test.go files in the overlay")
	mapsites := flag.String("mapsites", "", "file listing 'file.go:line' of range-over-map statements to rewrite")
	ovOut := flag.String("overlay", "", "write overlay fragment JSON here (default <out>/overlay.json)")
	flag.Parse()
	if *pkgdir == "" || *out == "" {
		fmt.Fprintln(os.Stderr, "usage: vrewrite -pkgdir DIR -out DIR")
		os.Exit(2)
	}
	ms := map[string]bool{}
	if *mapsites != "" {
		b, err := os.ReadFile(*mapsites)
		if err != nil {
			fmt.Fprintln(os.Stderr, err)
			os.Exit(2)
		}
		for _, l := range strings.Fields(string(b)) {
			ms[l] = true
		}
	}
	os.MkdirAll(*out, 0o755)
	ents, err := os.ReadDir(*pkgdir)
	if err != nil {
		fmt.Fprintln(os.Stderr, err)
		os.Exit(2)
	}
	fset := token.NewFileSet()
	replace := map[string]string{}
	var allSites, allErrs []string
	for _, e := range ents {
		n := e.Name()
		if e.IsDir() || !strings.HasSuffix(n, ".go") {
			continue
		}
		full := filepath.Join(*pkgdir, n)
		if strings.HasSuffix(n, "_test.go") {
			if *dropTests {
				replace[full] = ""
			}
			continue
		}
		txt, sites, errs, err := rewriteFile(fset, full, ms)
		if err != nil {
			fmt.Fprintln(os.Stderr, "vrewrite:", err)
			os.Exit(2)
		}
		allErrs = append(allErrs, errs...)
		if len(sites) == 0 {
			continue
		}
		allSites = append(allSites, sites...)
		dst := filepath.Join(*out, n)
		if err := os.WriteFile(dst, []byte(txt), 0o644); err != nil {
			fmt.Fprintln(os.Stderr, err)
			os.Exit(2)
		}
		replace[full] = dst
	}
	if len(allErrs) > 0 {
		for _, e := range allErrs {
			fmt.Fprintln(os.Stderr, "vrewrite:", e)
		}
		os.Exit(2)
	}
	op := *ovOut
	if op == "" {
		op = filepath.Join(*out, "overlay.json")
	}
	b, _ := json.MarshalIndent(map[string]interface{}{"Replace": replace, "sites": allSites}, "", " ")
	os.WriteFile(op, b, 0o644)
	fmt.Printf("vrewrite: %d sites in %s\n", len(allSites), *pkgdir)
}
