module vmapsites

go 1.25.5
