// vmapsites prints "file.go:line" for every `range` statement over a map-typed
// expression in the non-test files of the given repository packages (import
// paths). Type information comes from the compiler's own export data:
// `go list -deps -export -overlay` + go/importer "gc" with a lookup function, so
// the VRF stand-in overlay is respected. Must be built with the same Go
// toolchain that compiles /repo (run via bin/vmapsites.sh).
//
//	vmapsites -overlay ov.json -dir /repo ./internal/accumulation ./PVM
package main

import (
	"bytes"
	"encoding/json"
	"flag"
	"fmt"
	"go/ast"
	"go/importer"
	"go/parser"
	"go/token"
	"go/types"
	"io"
	"os"
	"os/exec"
	"path/filepath"
	"sort"
	"strings"
)

type pkgInfo struct {
	ImportPath string
	Dir        string
	Export     string
	GoFiles    []string
	CgoFiles   []string
	DepOnly    bool
	Name       string
	ImportMap  map[string]string
}

func main() {
	overlay := flag.String("overlay", "", "overlay json")
	dir := flag.String("dir", "/repo", "module dir")
	flag.Parse()
	args := []string{"list", "-deps", "-export", "-json=ImportPath,Dir,Export,GoFiles,CgoFiles,DepOnly,Name,ImportMap"}
	if *overlay != "" {
		args = append(args, "-overlay", *overlay)
	}
	args = append(args, flag.Args()...)
	cmd := exec.Command("go", args...)
	cmd.Dir = *dir
	var out, errb bytes.Buffer
	cmd.Stdout, cmd.Stderr = &out, &errb
	if err := cmd.Run(); err != nil {
		fmt.Fprintln(os.Stderr, "go list failed:", err, errb.String())
		os.Exit(2)
	}
	dec := json.NewDecoder(&out)
	exports := map[string]string{}
	var targets []pkgInfo
	for {
		var p pkgInfo
		if err := dec.Decode(&p); err == io.EOF {
			break
		} else if err != nil {
			fmt.Fprintln(os.Stderr, err)
			os.Exit(2)
		}
		if p.Export != "" {
			exports[p.ImportPath] = p.Export
		}
		if !p.DepOnly {
			targets = append(targets, p)
		}
	}
	var ovl struct{ Replace map[string]string }
	if *overlay != "" {
		b, _ := os.ReadFile(*overlay)
		json.Unmarshal(b, &ovl)
	}
	fset := token.NewFileSet()
	var sites []string
	for _, p := range targets {
		imp := importer.ForCompiler(fset, "gc", func(path string) (io.ReadCloser, error) {
			if m, ok := p.ImportMap[path]; ok {
				path = m
			}
			e, ok := exports[path]
			if !ok {
				return nil, fmt.Errorf("no export data for %s", path)
			}
			return os.Open(e)
		})
		var files []*ast.File
		for _, f := range append(append([]string{}, p.GoFiles...), p.CgoFiles...) {
			full := filepath.Join(p.Dir, f)
			src := full
			if r, ok := ovl.Replace[full]; ok && r != "" {
				src = r
			}
			b, err := os.ReadFile(src)
			if err != nil {
				fmt.Fprintln(os.Stderr, err)
				os.Exit(2)
			}
			af, err := parser.ParseFile(fset, full, b, 0)
			if err != nil {
				fmt.Fprintln(os.Stderr, err)
				os.Exit(2)
			}
			files = append(files, af)
		}
		info := &types.Info{Types: map[ast.Expr]types.TypeAndValue{}}
		conf := types.Config{Importer: imp, FakeImportC: true, Error: func(err error) {}}
		conf.Check(p.ImportPath, fset, files, info)
		for _, af := range files {
			ast.Inspect(af, func(n ast.Node) bool {
				rs, ok := n.(*ast.RangeStmt)
				if !ok {
					return true
				}
				tv, ok := info.Types[rs.X]
				if !ok || tv.Type == nil {
					return true
				}
				if _, isMap := tv.Type.Underlying().(*types.Map); isMap {
					pos := fset.Position(rs.Pos())
					rel := strings.TrimPrefix(pos.Filename, *dir+"/")
					sites = append(sites, fmt.Sprintf("%s:%d", rel, pos.Line))
				}
				return true
			})
		}
	}
	sort.Strings(sites)
	for _, s := range sites {
		fmt.Println(s)
	}
}
